"""Rule instances shared by the run-length properties C14-C17."""
import ast
from .guards import Formulas, check_guard, find_calls, facts_at
from .terms import T, alts, attr_chain, walk, is_const, call_name, np_call
from .opflow import value_roots, param_names

RL = "runlengtharray.RunLengthArray."


def _strip_star(t):
    return t.a[0] if t.k == "star" else t


def sanitizer_chain(t):
    """names of the canonicalisation helpers a constructor argument went through, outermost first"""
    out = []
    x = _strip_star(t)
    for _ in range(6):
        while x.k == "item":
            x = x.a[0]
        if x.k == "phi":
            chains = [sanitizer_chain(a) for a in x.a[0]]
            if chains and all(c == chains[0] for c in chains):
                return out + chains[0]
            if not out and all("?" not in c for c in chains) and any(c[:2] == ["join_runs", "remove_empty_intervals"] for c in chains) \
                    and all(c[:2] == ["join_runs", "remove_empty_intervals"] or c == ["remove_empty_intervals"] for c in chains):
                return ["?join-on-some-paths"]
            return out + ["?"]
        if x.k == "call" and x.a[0].k == "attr" and x.a[0].a[1] in ("join_runs", "remove_empty_intervals"):
            out.append(x.a[0].a[1])
            x = _strip_star(x.a[1][0]) if x.a[1] else x
            continue
        break
    return out


def boundary_arguments(ctx, rule):
    """join_runs(events, values) and remove_empty_intervals(events, values, ..) work on the n + 1 run *boundaries* (leading 0
    included) of n values: handing them the n run ends / starts deletes the wrong boundary of every merged pair"""
    what = "the boundary cleaners receive the n+1 run boundaries (events), not the n run ends or starts"
    seen = 0
    for q, f in sorted(ctx.program.funcs.items()):
        if not q.startswith("runlengtharray."):
            continue
        if not any(isinstance(x, ast.Attribute) and x.attr in ("join_runs", "remove_empty_intervals") for x in ast.walk(f.node)):
            continue
        fa = ctx.fa(f)
        for n, c in find_calls(fa, lambda c: c.a[0].k == "attr" and c.a[0].a[1] in ("join_runs", "remove_empty_intervals") and c.a[1]):
            first = c.a[1][0]
            if f.cls is not None and f.cls.qual.endswith("RunLength2dArray") or (c.a[0].a[0].k == "attr" and c.a[0].a[0].a[1] in ("_indices", "_values")):
                continue          # the 2-D classes' own join_runs has another signature
            seen += 1
            chains = [attr_chain(a) for a in alts(first)]
            bad = [ch for ch in chains if ch and ch[-1] in ("_ends", "ends", "_starts", "starts")]
            ctx.decide(rule, f, what, False if bad else True, "`%s` passes `%s`, which has one entry per run" % (c, ".".join(bad[0]) if bad else ""), node=c.node,
                       key="boundaries:%s" % c.a[0].a[1], engine="E5")
    return seen


def canonical_construction(ctx, rule, f, promise_join=True):
    """every constructor call in f builds from values that passed remove_empty_intervals and then join_runs
    (join last: dropping an empty run between two equal runs creates an adjacent-equal pair)"""
    fa = ctx.fa(f)
    found = False
    for r in fa.cfg.returns():
        tm = fa.term(r.ast.value, r)
        if tm.k != "call" or not tm.a[1]:
            continue
        ft = tm.a[0]
        if not (ft.k == "attr" and ft.a[1] == "__class__") and not (ft.k == "global"):
            continue
        found = True
        chain = sanitizer_chain(tm.a[1][0])
        what = "the result is built from boundaries that passed remove_empty_intervals and then join_runs (join last)"
        if chain == ["?join-on-some-paths"] and promise_join:
            ctx.violated(rule, f, what, "join_runs is applied on some paths only: on the others adjacent runs with equal values survive (inputs produced by scalar "
                         "ufuncs, astype and concatenate are not joined, so equal neighbours can exist without any run having been dropped)", node=r.ast, engine="E1")
        elif "?" in chain or chain == ["?join-on-some-paths"]:
            ctx.unknown(rule, f, what, node=r.ast, engine="E1")
        elif chain[:2] == ["join_runs", "remove_empty_intervals"]:
            ctx.holds(rule, f, what, node=r.ast, engine="E1")
        elif chain[:2] == ["remove_empty_intervals", "join_runs"]:
            ctx.violated(rule, f, what, "join_runs runs before remove_empty_intervals: two equal runs that become neighbours when the empty run between "
                         "them is dropped are never merged (witness: from_array([0, 1, 0])[::2])", node=r.ast, engine="E1")
        elif chain == ["remove_empty_intervals"] and promise_join:
            ctx.violated(rule, f, what, "join_runs is missing: adjacent runs with equal values survive", node=r.ast, engine="E1")
        elif chain == ["join_runs"]:
            ctx.violated(rule, f, what, "remove_empty_intervals is missing: empty runs reach the constructor (which refuses them) or survive", node=r.ast, engine="E1")
        elif not chain:
            # no helper call at all: either nothing is canonicalised, or both helpers were inlined.  Their bodies delete positions found
            # by comparing neighbours (np.delete / a keep-mask over `x[:-1] == x[1:]`): if the function does that itself, the
            # question is left open instead of reported
            inlined = sum(1 for x in ast.walk(f.node) if isinstance(x, ast.Compare) and len(x.ops) == 1 and isinstance(x.ops[0], (ast.Eq, ast.NotEq))
                          and isinstance(x.left, ast.Subscript) and isinstance(x.comparators[0], ast.Subscript)
                          and isinstance(x.left.slice, ast.Slice) and isinstance(x.comparators[0].slice, ast.Slice))
            if inlined >= 2:
                ctx.unknown(rule, f, what, "no helper call; the function compares neighbours itself (%d comparisons): inlined canonicalisation is not judged" % inlined, node=r.ast, engine="E1")
            else:
                ctx.violated(rule, f, what, "neither canonicalisation helper is applied", node=r.ast, engine="E1")
        else:
            ctx.unknown(rule, f, what, "chain %s" % chain, node=r.ast, engine="E1")
    if not found:
        ctx.unknown(rule, f, "canonical construction", "constructor call not recognised", engine="E1")


def ceil_rescale(ctx, rule, f):
    """U3: boundaries divided by a stride use the ceil form (x + k - 1)//k with one k = |step|; U-order: reversal
    (for negative steps) is applied to the boundaries before the rescale, never to rescaled boundaries"""
    fa = ctx.fa(f)
    found = False
    for n in fa.cfg.stmts():
        if not (n.kind == "stmt" and isinstance(n.ast, ast.Assign)):
            continue
        tm = fa.term(n.ast.value, n)
        if tm.k == "bin" and tm.a[0] == "//":
            num, k = tm.a[1], tm.a[2]
            found = True
            what = "stride rescaling of run boundaries is a ceiling division (x + k - 1)//k with k = |step|"
            ok = None
            if num.k == "bin" and num.a[0] == "-" and is_const(num.a[2], 1) and num.a[1].k == "bin" and num.a[1].a[0] == "+" and num.a[1].a[2] == k:
                ok = True
                base = num.a[1].a[1]
            elif num.k == "bin" and num.a[0] == "+" and num.a[2].k == "bin" and num.a[2].a[0] == "-" and num.a[2].a[1] == k and is_const(num.a[2].a[2], 1):
                ok = True
                base = num.a[1]
            elif num.k == "bin" and num.a[0] in ("+", "-"):
                ok = False
                base = num.a[1]
            else:
                ok = False
                base = num
            ctx.decide(rule, f, what, ok, "boundaries are rescaled as %s: not a ceiling division by the step, positions inside a stride are attributed to the wrong run" % (tm,),
                       node=n.ast, key="ceil", engine="E5")
            absk = all((a.k == "call" and a.a[0].k == "global" and a.a[0].a[0] == "abs") or np_call(a, {"abs"}) for a in alts(k))
            ctx.decide(rule, f, "the divisor is the absolute step", True if absk else None, node=n.ast, key="abs-step", engine="E5")
            # order: no reversal applied on top of a rescaled value; the rescaled operand may itself be reversed
    # reversal after rescale?
    for n in fa.cfg.stmts():
        if not (n.kind == "stmt" and isinstance(n.ast, ast.Assign)):
            continue
        tm = fa.term(n.ast.value, n)
        for x in walk(tm):
            if x.k == "sub" and _is_rev(x.a[1]) and any(y.k == "bin" and y.a[0] == "//" for y in walk(x.a[0])):
                ctx.violated(rule, f, "for negative steps the boundaries are reversed before the stride rescaling",
                             "`%s` reverses boundaries that were already divided by the step: ceil((L - e)/k) differs from L' - ceil(e/k), so "
                             "reversed strided slices pick the wrong elements unless (length - 1) is a multiple of the step" % (x,), node=n.ast, key="order", engine="E5")
                return
    if found:
        ctx.holds(rule, f, "for negative steps the boundaries are reversed before the stride rescaling", key="order", engine="E5")
    else:
        ctx.unknown(rule, f, "stride rescaling", "no floor-division of boundaries found", engine="E5")


def _is_rev(idx):
    if idx.k == "slice":
        return is_const(idx.a[2], -1)
    if idx.k == "tuple":
        return any(_is_rev(x) for x in idx.a[0])
    return False


def co_reversal(ctx, rule, f, ind_name, val_name):
    """the step < 0 branch reverses boundaries (last - boundaries[::-1]) and values together"""
    fa = ctx.fa(f)
    rev = {}
    for n in fa.cfg.stmts():
        if n.kind != "stmt" or not isinstance(n.ast, ast.Assign):
            continue
        facts = facts_at(fa, n)
        if not any(t.k == "cmp" and t.a[0] == "<" and is_const(t.a[2], 0) and truth for t, truth, _ in facts):
            continue
        tg = n.ast.targets[0]
        names = [e.id for e in tg.elts] if isinstance(tg, ast.Tuple) else ([tg.id] if isinstance(tg, ast.Name) else [])
        vals = n.ast.value.elts if isinstance(n.ast.value, ast.Tuple) and isinstance(tg, ast.Tuple) else [n.ast.value]
        for nm, v in zip(names, vals):
            tm = fa.term(v, n)
            rev[nm] = (any(x.k == "sub" and _is_rev(x.a[1]) for x in walk(tm)), tm, n)
    what = "for a negative step boundaries and values are reversed together"
    if ind_name not in rev and val_name not in rev:
        ctx.unknown(rule, f, what, "negative-step branch not recognised", engine="E6")
        return
    ri = rev.get(ind_name, (False, None, None))
    rv = rev.get(val_name, (False, None, None))
    ctx.decide(rule, f, what, ri[0] and rv[0], "boundaries reversed=%s, values reversed=%s" % (ri[0], rv[0]), node=(ri[2] or rv[2]).ast, key="co-reversal", engine="E6")
    if ri[0]:
        tm = ri[1]
        ok = tm.k == "bin" and tm.a[0] == "-" and any(x.k == "sub" and _is_rev(x.a[1]) for x in walk(tm.a[2])) and \
            any(x.k == "sub" and (is_const(x.a[1], -1) or (x.a[1].k == "tuple" and is_const(x.a[1].a[0][-1], -1))) for x in walk(tm.a[1]))
        ctx.decide(rule, f, "reversed boundaries are (last boundary - boundaries[::-1])", True if ok else None, node=ri[2].ast, key="reflect", engine="E5")


def delete_helpers(ctx, rule):
    """remove_empty_intervals / join_runs of the 1-D class: U6 neighbour comparison and the same mask deleted
    from boundaries and values"""
    for name, shifted in (("remove_empty_intervals", "events"), ("join_runs", "values")):
        f = ctx.func(RL + name)
        fa = ctx.fa(f)
        for r in fa.cfg.returns():
            tm = fa.term(r.ast.value, r)
            if tm.k != "tuple" or len(tm.a[0]) != 2:
                ctx.unknown(rule, f, "%s deletes the same positions from boundaries and values" % name, node=r.ast, engine="E6")
                continue
            a, b = tm.a[0]
            ok = None
            if np_call(a, {"delete"}) and np_call(b, {"delete"}) and len(a.a[1]) >= 2 and len(b.a[1]) >= 2:
                ok = a.a[1][1] == b.a[1][1] and a.a[1][0].k == "param" and b.a[1][0].k == "param" and \
                    [a.a[1][0].a[0], b.a[1][0].a[0]] == list(f.params[:2])
                m = a.a[1][1]
                from .rules.C07 import u6
                for x in walk(m):
                    if x.k == "cmp" and x.a[0] == "==":
                        u6(ctx, rule, f, x, r.ast)
                        base = x.a[1].a[0] if x.a[1].k == "sub" else None
                        okb = base is not None and base.k == "param" and base.a[0] == (f.params[0] if shifted == "events" else f.params[1])
                        ctx.decide(rule, f, "%s compares neighbouring %s" % (name, shifted), True if okb else (False if base is not None and base.k == "param" else None),
                                   "compares %s" % (base,), node=r.ast, key="subject", engine="E6")
                if name == "join_runs":
                    # the later of two equal runs is dropped: mask index + 1
                    plus = any(x.k == "bin" and x.a[0] == "+" and is_const(x.a[2], 1) for x in alts(m))
                    bare = all(np_call(x, {"flatnonzero"}) is not None and x.a[1] and x.a[1][0].k == "cmp" for x in alts(m))
                    ctx.decide(rule, f, "join_runs drops the second of two equal neighbours (boundary between them)", True if plus else (False if bare else None),
                               "the first run's start boundary is deleted instead of the boundary between the runs", node=r.ast, key="plus-one", engine="E5")
            ctx.decide(rule, f, "%s deletes the same positions from boundaries and values, in (events, values) order" % name, ok, node=r.ast, key="co-delete", engine="E6")


def empty_interval_direction(ctx, rule):
    """an empty run i has events[i] == events[i+1].  delete_first=True drops the run's own entry (position i of boundaries and
    values: the value of the empty run goes), delete_first=False drops position i+1 (the following value goes).  Whatever the
    spelling - positions shifted by one under `not delete_first`, or a keep-mask written through [:-1] resp. [1:] - the flag must
    select that side"""
    f = ctx.func(RL + "remove_empty_intervals")
    fa = ctx.fa(f)
    what = "delete_first=True removes the empty run's own boundary and value, delete_first=False the following ones"
    flag = "delete_first" if "delete_first" in f.params else None
    if flag is None:
        ctx.unknown(rule, f, what, "no delete_first parameter", key="direction", engine="E5")
        return
    verdicts = []
    for n in fa.cfg.stmts():
        if n.kind != "stmt" or not fa.cfg.is_reachable(n):
            continue
        polarity = None
        for t, truth, _ in facts_at(fa, n):
            if t.k == "param" and t.a[0] == flag:
                polarity = truth
        if polarity is None:
            continue
        st = n.ast
        # spelling A:  positions += 1   (shift to the following entry)
        if isinstance(st, ast.AugAssign) and isinstance(st.op, ast.Add) and isinstance(st.value, ast.Constant) and st.value.value == 1:
            verdicts.append((polarity is False, st, "the positions are shifted to the following entry when delete_first is %s" % polarity))
        # spelling B:  keep[:-1] = ~is_empty  (drops position i)   /   keep[1:] = ~is_empty  (drops position i + 1)
        if isinstance(st, ast.Assign) and len(st.targets) == 1 and isinstance(st.targets[0], ast.Subscript) and isinstance(st.targets[0].slice, ast.Slice):
            sl = st.targets[0].slice
            own = sl.lower is None and isinstance(sl.upper, ast.UnaryOp) and isinstance(sl.upper.operand, ast.Constant) and sl.upper.operand.value == 1
            following = sl.upper is None and isinstance(sl.lower, ast.Constant) and sl.lower.value == 1
            negated = isinstance(st.value, ast.UnaryOp) and isinstance(st.value.op, (ast.Invert, ast.Not))
            if (own or following) and negated:
                verdicts.append(((own and polarity is True) or (following and polarity is False), st,
                                 "the keep-mask is written through %s when delete_first is %s" % ("[:-1] (the run's own entry)" if own else "[1:] (the following entry)", polarity)))
    if not verdicts:
        ctx.unknown(rule, f, what, "neither spelling recognised", key="direction", engine="E5")
        return
    bad = [v for v in verdicts if not v[0]]
    ctx.decide(rule, f, what, not bad, (bad[0][2] + ": the value that belongs to the empty run stays and a real value is dropped") if bad else "", node=(bad[0][1] if bad else verdicts[0][1]),
               key="direction", engine="E5")


def weighted_sum_dtype(ctx, rule, f):
    """KB: int64 * uint64 has no common integer type, numpy promotes the product to float64.  A length-weighted sum
    `lengths * values` therefore leaves the integers for unsigned 64-bit values (inexact above 2**53, float result)
    unless the lengths are cast to an unsigned type on every path taken for unsigned values"""
    from .guards import reachable_under, find_calls
    fa = ctx.fa(f)
    subj = lambda t: t.k == "attr" and t.a[1] == "dtype"
    what = "for unsigned run values the run lengths are unsigned too before they are multiplied (int64 * uint64 would promote to float64)"
    found = 0
    for n in fa.cfg.stmts():
        if not fa.cfg.is_reachable(n):
            continue
        from .resolve import _exprs_of_node
        for e in _exprs_of_node(n):
            for x in ast.walk(e):
                if not (isinstance(x, ast.BinOp) and isinstance(x.op, ast.Mult)):
                    continue
                tl, tr = fa.term(x.left, n), fa.term(x.right, n)
                for w, v, wast in ((tl, tr, x.left), (tr, tl, x.right)):
                    # run lengths / array lengths: differences of boundaries, or the array's size / len (numpy int64 scalars taken from the boundaries)
                    is_w = all(any((y.k == "attr" and y.a[1] in ("_events", "_indices", "_row_len", "_ends", "_starts", "size")) or (y.k == "call" and call_name(y) == "len" and y.a[1] and y.a[1][0].k == "param")
                                   for y in walk(a)) for a in alts(w)) \
                        and not any(y.k == "attr" and y.a[1] == "_values" for y in walk(w))
                    is_v = any(y.k == "attr" and y.a[1] == "_values" for y in walk(v))
                    if not (is_w and is_v):
                        continue
                    found += 1
                    def cast(a):
                        return any(y.k == "call" and y.a[0].k == "attr" and y.a[0].a[1] == "astype" and y.a[1] and (
                            (attr_chain(y.a[1][0]) or ("",))[-1] in ("uint64", "uint", "dtype") or (y.a[1][0].k == "const" and str(y.a[1][0].a[0]).startswith("u"))) for y in walk(a))
                    al = alts(w)
                    if all(cast(a) for a in al):
                        ctx.holds(rule, f, what, node=x, key="weights:%s" % ast.unparse(wast), engine="KB")
                        continue
                    cast_nodes = [fa.node_of(a.node) for a in al if cast(a) and a.node is not None]
                    cast_nodes = [c for c in cast_nodes if c is not None]
                    if cast_nodes:
                        reach = reachable_under(fa, "unsigned", subj, avoid=cast_nodes)
                        ok = n.id not in reach
                        ctx.decide(rule, f, what, True if ok else None, "an un-cast definition of the lengths may reach the product", node=x, key="weights:%s" % ast.unparse(wast), engine="KB")
                    else:
                        reach = reachable_under(fa, "unsigned", subj)
                        ctx.decide(rule, f, what, False if n.id in reach else True,
                                   "`%s`: the lengths are int64 and the values may be uint64: numpy promotes the product to float64, so the sum of "
                                   "uint64 run values is a float (inexact above 2**53) where numpy's sum of the decoded array is uint64" % ast.unparse(x),
                                   node=x, key="weights:%s" % ast.unparse(wast), engine="KB")
    if not found:
        ctx.unknown(rule, f, what, "no length-weighted product recognised", engine="KB")


def slice_range_model(ctx, rule, Ns=(0, 1, 2, 3)):
    """E9 on RunLengthArray._get_slice: for arrays of 0-3 elements the slice space (start, stop, step) is cut at every
    landmark of Python's slice arithmetic; on each cell the method is interpreted abstractly up to the point where it
    either returns the empty array or asks `_start_to_end(lo, hi)` for the covered range.  Required: empty exactly when
    Python selects nothing; otherwise for a forward slice lo is the first selected position and hi lies in
    (last selected, N]; for a backward slice hi - 1 is the first selected position and lo lies in [0, last selected]
    (the stride is then applied inside that range, from its low end for forward and from its high end for backward slices)."""
    from .absint import Interp, Iv, NONE, SliceV, Obj, INF, REFUSED
    f = ctx.func("runlengtharray.RunLengthArray._get_slice")
    cls = f.cls
    what = "for arrays of %d element(s) a slice covers the range Python's slice arithmetic selects from (and is empty exactly when Python selects nothing)"
    for N in Ns:
        bc = [("None", NONE, [None])] + [(str(v), Iv(v, v), [v]) for v in range(-N - 1, N + 2)] + \
            [("<=%d" % (-N - 2), Iv(-INF, -N - 2), [-N - 2, -N - 9, -10 ** 9]), (">=%d" % (N + 2), Iv(N + 2, INF), [N + 2, N + 9, 10 ** 9])]
        top = max(N, 1)
        sc = [("None", NONE, [None])] + [(str(v), Iv(v, v), [v]) for v in list(range(-top, 0)) + list(range(1, top + 1))] + \
            [("<=%d" % (-top - 1), Iv(-INF, -top - 1), [-top - 1, -top - 5, -10 ** 9]), (">=%d" % (top + 1), Iv(top + 1, INF), [top + 1, top + 5, 10 ** 9])]
        bad, ok, unk = [], 0, 0
        for sn, sv, sreps in sc:
            for an, av, areps in bc:
                for bn, bv, breps in bc:
                    outs = set()
                    for a in areps:
                        for b in breps:
                            for st in sreps:
                                sl = slice(a, b, st)
                                r = range(*sl.indices(N))
                                outs.add((sl.indices(N)[:2], len(r), (r[0], r[-1]) if len(r) else None, (st or 1) < 0))
                    if len(outs) != 1:
                        unk += 1
                        continue
                    (ind2, nsel, ends, rev) = next(iter(outs))
                    step_sign = -1 if rev else 1
                    # slice.indices()[2] is the step itself: any representative will do for the sign tests in the code
                    rep_step = [st for st in sreps][0]
                    I = Interp(ctx, cls, {"len:self": Iv(N, N)})
                    I.opaque_methods = {"_start_to_end", "_step_subset", "_get_position"}
                    stepv = sv
                    res = I.run(f, [SliceV(av, bv, stepv, indices_result=(ind2[0], ind2[1], rep_step if rep_step is not None else 1))], {})
                    key = "start=%s,stop=%s,step=%s" % (an, bn, sn)
                    if I.unknown_reasons:
                        unk += 1
                        continue
                    asked = [c for c in I.calls if c[0] == "_start_to_end"]
                    if nsel == 0:
                        if asked:
                            bad.append((key, "asks for the range %s although Python selects nothing" % (asked[0][1],)))
                        elif isinstance(res, Obj):
                            ok += 1
                        else:
                            unk += 1
                        continue
                    picked = [c for c in I.calls if c[0] == "_get_position"]
                    if not asked and picked and len(I.returned) == 1:
                        # a single-element shortcut: it must be taken only when Python selects one element, and pick that element
                        pv = picked[0][1][0] if picked[0][1] else None
                        pn = I.num(pv) if isinstance(pv, Iv) else None
                        if pn is not None and pn[0] == pn[1]:
                            if nsel != 1 or pn[0] != ends[0]:
                                bad.append((key, "returns the single element at position %d where Python selects %d element(s) starting at position %d" % (pn[0], nsel, ends[0])))
                            else:
                                ok += 1
                            continue
                    if not asked:
                        # definitely the empty result only if every reached return builds an empty array literally
                        lit_empty = I.returned and all(any(isinstance(x, ast.Call) and isinstance(x.func, ast.Attribute) and x.func.attr in ("empty", "empty_like", "zeros")
                                                           for x in ast.walk(r_)) for r_ in I.returned)
                        if lit_empty:
                            bad.append((key, "returns the empty array although Python selects %d element(s)" % nsel))
                        else:
                            unk += 1
                        continue
                    lo, hi = asked[0][1][0], asked[0][1][1]
                    nlo, nhi = I.num(lo) if isinstance(lo, Iv) else None, I.num(hi) if isinstance(hi, Iv) else None
                    if nlo is None or nhi is None or nlo[0] != nlo[1] or nhi[0] != nhi[1]:
                        unk += 1
                        continue
                    lo, hi = nlo[0], nhi[0]
                    first, last = ends
                    if step_sign > 0:
                        good = lo == first and last < hi <= N
                    else:
                        good = hi - 1 == first and 0 <= lo <= last
                    if good:
                        ok += 1
                    else:
                        bad.append((key, "covers [%d, %d) where Python selects positions %d..%d (%s)" % (lo, hi, first, last, "backward" if rev else "forward")))
        if bad:
            for key, detail in bad[:4]:
                ctx.violated(rule, f, what % N, "slice %s on %d element(s): %s (%d cells of the slice partition disagree, %d agree)" % (key, N, detail, len(bad), ok),
                             key="slice-model:N=%d:%s" % (N, key), engine="E9")
        else:
            ctx.decide(rule, f, what % N, True if ok else None, key="slice-model:N=%d" % N, engine="E9", detail_ok="%d cells agree, %d undecided" % (ok, unk))
