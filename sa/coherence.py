"""Rules VC1-VC4 on top of the E2 typestate (see DESIGN.md 3.4).

VC1  every layout-dependent read of P._shape needs P materialised at that point (also reads of
     .starts/.ends on views derived from P._shape by layout-independent operations)
VC2  an index handed to the raw buffer (`return idx, None` in the index providers of __getitem__) is either
     produced by get_flat_indices() (raw coordinates) or computed while self is materialised
VC3  = VC1 for the bare geometry object paired with materialised data in a constructor
VC4  every raw write (_set_data_range) happens on a materialised receiver, whose index was computed after
     the materialisation
"""
import ast
from .typestate import TypeState, LI, NEUTRAL_CALLS, path_of, parent_map
from .model import Func
from .terms import alts, walk
from .core import norm

SCOPE_MODULES = ("raggedarray", "raggedarray.base", "raggedarray.indexablearray", "raggedarray.raggedslice",
                 "arrayfunctions", "hashtable", "runlengtharray", "mixin", "npdataclasses", "testing")

# declared field invariants (assumptions, printed in the evidence): these RaggedArray-valued fields are
# built materialised by their owner and only replaced by materialised objects
FIELD_MAT = {"self._keys", "self._values", "hash_table._keys", "other._keys", "other._values"}

SUPPRESSED_EDGES = {
    ("arrayfunctions.where", "raggedarray.RaggedArray._broadcast_rows"):
        "x is the dispatching operand whenever the mask is not ragged, and __array_function__ materialised it",
}


class Coherence:
    def __init__(self, tk):
        self.tk = tk
        self.ctx = tk.ctx
        self.ts = TypeState(tk)
        self.R = tk.R
        self.entry = {}
        self.results = {}
        self.sites = None
        self.callsite_notes = {}

    def scope(self):
        out = []
        for q, f in self.ctx.program.funcs.items():
            if f.module.short in SCOPE_MODULES:
                out.append(f)
        return out

    def is_private(self, f):
        if f.parent is not None:
            return False
        n = f.name
        if n.startswith("__") and n.endswith("__"):
            return False
        if not n.startswith("_"):
            return False
        if f.cls is not None:
            # public alias  `as_padded_matrix = _as_padded_matrix`
            for c in self.ctx.program.subclasses(f.cls) + [f.cls]:
                for k, v in c.attrs.items():
                    if isinstance(v, ast.Name) and v.id == n and not k.startswith("_"):
                        return False
        return True

    def handlers(self):
        """functions registered for __array_function__ dispatch -> they run after `self.ravel()` of the
        dispatching operand, which for single-array handlers is their first parameter"""
        out = {}
        for m in self.ctx.program.modules.values():
            if "HANDLED_FUNCTIONS" in m.assigns:
                for g in self.R.registry_funcs(m, "HANDLED_FUNCTIONS"):
                    if isinstance(g, Func) and g.cls is None:
                        out[g.qual] = g
        return out

    def compute(self):
        if self.sites is not None:
            return self.sites
        funcs = self.scope()
        handlers = self.handlers()
        priv = {f.qual for f in funcs if self.is_private(f)}
        TOP = "TOP"
        entry = {}
        for f in funcs:
            if f.qual in priv or f.qual in handlers:
                entry[f.qual] = TOP
            else:
                entry[f.qual] = frozenset()
        for _ in range(8):
            new = {q: (TOP if (q in priv or q in handlers) else frozenset()) for q in entry}
            notes = {}
            for f in funcs:
                e = entry[f.qual]
                if e == TOP:
                    e = frozenset(f.params)     # optimistic start; refined by the meet below
                res = self.ts.analyse(f, self._with_fields(e))
                fa = res["fa"]
                for n in fa.cfg.stmts():
                    for call in _calls_in(n):
                        st = res["call"].get(id(call))
                        if st is None:
                            continue
                        node = fa.node_of(call)
                        tm = fa.term(call, node) if node is not None else None
                        if tm is None or tm.k != "call":
                            continue
                        targets = self.R.resolve_call(tm, fa) or []
                        for g in targets:
                            if g.qual not in new:
                                continue
                            if (f.qual, g.qual) in SUPPRESSED_EDGES:
                                tag = "call edge %s -> %s not used for the callee's entry state (%s)" % (
                                    f.qual, g.qual, SUPPRESSED_EDGES[(f.qual, g.qual)])
                                if tag not in self.ctx.suppressed:
                                    self.ctx.suppressed.append(tag)
                                continue
                            if g.qual in handlers:
                                # registry dispatch: first parameter = dispatcher iff the receiver of
                                # __array_function__ is materialised at the dispatch call
                                m = frozenset([g.params[0]]) if (g.params and f.params and f.params[0] in st) else frozenset()
                            elif g.qual in priv:
                                m = self._map_state(call, g, st, f, tm)
                            else:
                                continue
                            cur = new[g.qual]
                            new[g.qual] = m if cur == TOP else (cur & m)
                            for p in g.params:
                                if p not in m:
                                    notes.setdefault((g.qual, p), []).append("%s:%s" % (f.qual, call.lineno))
            for q in new:
                if new[q] == TOP:
                    new[q] = frozenset()        # no call site found: unknown callers
            stable = all((entry[q] if entry[q] != TOP else None) == new[q] for q in entry)
            entry = new
            self.callsite_notes = notes
            if stable:
                break
        self.entry = entry
        self.sites = []
        for f in funcs:
            res = self.ts.analyse(f, self._with_fields(entry[f.qual]))
            self.results[f.qual] = res
            self._collect(f, res)
        return self.sites

    def _with_fields(self, e):
        return frozenset(e) | FIELD_MAT

    def _map_state(self, call, g, st, caller, tm=None):
        m = set()
        params = list(g.params)
        if isinstance(call.func, ast.Attribute) and g.cls is not None and not g.is_staticmethod and params:
            rp = path_of(call.func.value)
            if rp is not None and rp in st:
                m.add(params[0])
            params = params[1:]
        elif isinstance(call.func, ast.Name) and g.cls is not None and not g.is_staticmethod and params and tm is not None \
                and tm.a[0].k == "call" and tm.a[0].a[0].k == "global" and tm.a[0].a[0].a[0] == "getattr" and tm.a[0].a[1]:
            # a bound method fetched with getattr(obj, name) and called through a local: the receiver is obj
            obj = tm.a[0].a[1][0]
            rp = obj.a[0] if obj.k == "param" else None
            if rp is not None and rp in st:
                m.add(params[0])
            params = params[1:]
        for i, a in enumerate(call.args):
            p = path_of(a)
            if p is not None and p in st and i < len(params):
                m.add(params[i])
        for k in call.keywords:
            p = path_of(k.value)
            if p is not None and p in st and k.arg in g.params:
                m.add(k.arg)
        return frozenset(m)

    # -- site collection -------------------------------------------------------------
    def _collect(self, f, res):
        fa = res["fa"]
        pm = parent_map(f.node)
        entry = self.entry[f.qual]
        for sid, (mat, path, node) in res["shape"].items():
            if not fa.cfg.is_reachable(fa.node_of(node)) if fa.node_of(node) is not None else False:
                continue
            kind, what = self._classify(node, pm, fa)
            if kind is None:
                continue
            self.sites.append({"func": f, "rule": kind, "node": node, "path": path, "mat": mat, "what": what,
                               "entry": entry})
        # derived LD reads: V.starts / V.ends where V expands to P._shape.<LI op>(...)
        for n in fa.cfg.stmts():
            for e in _exprs(n):
                for sub in ast.walk(e):
                    if isinstance(sub, ast.Attribute) and sub.attr in ("starts", "ends") and isinstance(sub.ctx, ast.Load):
                        if isinstance(sub.value, ast.Attribute) and sub.value.attr == "_shape":
                            continue          # direct read, handled above
                        tm = fa.term(sub.value, n)
                        root = _li_root(tm)
                        if root is None:
                            continue
                        rec = res["shape"].get(id(root.node)) if root.node is not None else None
                        if rec is None:
                            # the _shape read happened in another statement: look it up by node identity
                            continue
                        self.sites.append({"func": f, "rule": "VC1", "node": sub, "path": rec[1], "mat": rec[0],
                                           "what": "reads .%s of a view derived from %s._shape" % (sub.attr, rec[1]),
                                           "entry": entry})

    def _classify(self, node, pm, fa):
        """(rule, description) for a read  P._shape  at `node`; (None, None) when layout independent"""
        par = pm.get(id(node))
        if isinstance(par, ast.Attribute) and par.value is node:
            if par.attr in LI:
                return None, None
            return "VC1", "reads %s (layout dependent)" % ast.unparse(par)
        if isinstance(par, ast.Compare):
            return "VC1", "compares geometry objects (%s)" % ast.unparse(par)
        if isinstance(par, ast.Call):
            fn = par.func
            if isinstance(fn, ast.Name) and fn.id in NEUTRAL_CALLS:
                return None, None
            return "VC3", "passes the geometry object %s to %s" % (ast.unparse(node), ast.unparse(fn))
        if isinstance(par, ast.keyword):
            return "VC3", "passes the geometry object %s as %s=" % (ast.unparse(node), par.arg)
        if isinstance(par, (ast.Return, ast.Tuple, ast.List)):
            return "VC3", "hands out the geometry object %s" % ast.unparse(node)
        if isinstance(par, ast.IfExp):
            return "VC3", "uses the geometry object %s" % ast.unparse(node)
        if isinstance(par, ast.Assign):
            if node in par.targets:
                return None, None
            return "VC3", "keeps the geometry object %s" % ast.unparse(node)
        if isinstance(par, (ast.FormattedValue, ast.JoinedStr)):
            return None, None
        return None, None

    # -- VC2 / VC4 -------------------------------------------------------------------------
    def providers(self):
        """functions whose `return idx, None` feeds __getitem__'s raw read"""
        p = self.ctx.program
        gi = p.funcs.get("raggedarray.indexablearray.IndexableArray.__getitem__")
        if gi is None:
            return []
        fa = self.ctx.fa(gi)
        roots = []
        for n in fa.cfg.stmts():
            for call in _calls_in(n):
                if isinstance(call.func, ast.Attribute) and call.func.attr == "_get_data_range" and call.args:
                    tm = fa.term(call.args[0], n)
                    for a in alts(tm):
                        src = a
                        while src.k == "item":
                            src = src.a[0]
                        if src.k == "call":
                            for g in self.R.resolve_call(src, fa) or []:
                                roots.append(g)
        out, stack = [], list(roots)
        while stack:
            g = stack.pop()
            if g in out:
                continue
            out.append(g)
            ga = self.ctx.fa(g)
            for n in ga.cfg.returns():
                v = n.ast.value
                if isinstance(v, ast.Call):
                    tm = ga.term(v, n)
                    for h in self.R.resolve_call(tm, ga) or []:
                        if h.cls is not None and h not in out and h.module.short.startswith("raggedarray"):
                            stack.append(h)
        return out


def _li_root(tm):
    """if tm is  P._shape.<LI method>(...)[.<LI method>(...)]*  return the `P._shape` attr term"""
    t = tm
    for _ in range(6):
        if t.k == "phi":
            roots = [_li_root(x) for x in t.a[0]]
            roots = [r for r in roots if r is not None]
            return roots[0] if roots else None
        if t.k == "call" and t.a[0].k == "attr" and t.a[0].a[1] in LI:
            t = t.a[0].a[0]
            continue
        if t.k == "sub":
            t = t.a[0]
            continue
        if t.k == "attr" and t.a[1] == "_shape":
            return t
        return None
    return None


def _calls_in(n):
    out = []
    for e in _exprs(n):
        for sub in ast.walk(e):
            if isinstance(sub, ast.Call):
                out.append(sub)
    return out


def _exprs(n):
    from .resolve import _exprs_of_node
    return _exprs_of_node(n)


def report(coh, rule_prefix, funcs=None, only_rules=None):
    """emit obligations for the typestate sites of `funcs` (all in scope when None)"""
    ctx = coh.ctx
    sites = coh.compute()
    fq = None if funcs is None else {f if isinstance(f, str) else f.qual for f in funcs}
    core = materialisation_code(coh)
    for s in sites:
        f = s["func"]
        if fq is not None and f.qual not in fq:
            continue
        if f.qual in core and f.params and s["path"].split(".")[0] == f.params[0]:
            # the materialisation step itself: reading the receiver's lazy geometry is what it is for
            continue
        if only_rules and s["rule"] not in only_rules:
            continue
        rule = "%s/%s" % (rule_prefix, s["rule"])
        what = "%s only while %s is materialised" % (s["what"], s["path"])
        if s["mat"]:
            ctx.holds(rule, f, what, node=s["node"], engine="E2")
        else:
            why = _why(coh, f, s["path"])
            ctx.violated(rule, f, what, "%s may still be a lazy view here (%s): its geometry addresses the parent's "
                         "buffer, not its own" % (s["path"], why), node=s["node"], engine="E2")


def materialisation_code(coh):
    """quals of the materialisation step(s) and of their private helpers"""
    ctx = coh.ctx
    core = {g.qual for g in coh.ts.core_materialisers()}
    # helpers of the materialisation step: private methods whose every resolved call site is `self.m(...)` inside the step (or
    # inside another such helper) do part of its work - deciding how to gather, computing the gather positions - and share its
    # licence to read the lazy geometry
    R = coh.tk.R if hasattr(coh, "tk") else None
    if R is not None:
        changed = True
        while changed:
            changed = False
            for q, g in ctx.program.funcs.items():
                if q in core or g.cls is None or not g.params or not g.name.startswith("_") or g.name.startswith("__"):
                    continue
                cs = R.call_sites(g)
                if cs and all(cfa.func.qual in core and c.a[0].k == "attr" and c.a[0].a[0].k == "param" and cfa.func.params and c.a[0].a[0].a[0] == cfa.func.params[0] for cfa, c in cs):
                    core.add(q)
                    changed = True
    return core


def _why(coh, f, path):
    root = path.split(".")[0]
    if root in f.params:
        notes = coh.callsite_notes.get((f.qual, root))
        if notes:
            return "not materialised at call site %s" % ", ".join(notes[:3])
        if coh.is_private(f):
            return "no materialisation on the path from entry"
        return "public entry point, no materialisation on the path"
    return "no materialisation of %s on the path" % path


def report_raw_access(coh, rule_prefix):
    """VC2 for index providers, VC4 for raw writers"""
    ctx = coh.ctx
    coh.compute()
    provs = coh.providers()
    if not provs:
        ctx.unknown(rule_prefix + "/VC2", "raggedarray.indexablearray.IndexableArray.__getitem__",
                    "index providers of the raw read found", "idiom not recognised")
    for g in provs:
        res = coh.results.get(g.qual)
        if res is None:
            continue
        fa = res["fa"]
        selfp = g.params[0] if g.params else None
        for n in fa.cfg.returns():
            v = n.ast.value
            if not (isinstance(v, ast.Tuple) and len(v.elts) == 2 and isinstance(v.elts[1], ast.Constant)
                    and v.elts[1].value is None):
                continue
            st = res["ret"].get(id(n.ast), frozenset())
            tm = fa.term(v.elts[0], n)
            raw = all(_is_raw(a) for a in alts(tm))
            what = "an index returned for the raw buffer is in raw coordinates (get_flat_indices) or computed on a materialised array"
            if selfp in st or raw:
                ctx.holds(rule_prefix + "/VC2", g, what, node=n.ast, engine="E2")
            else:
                ctx.violated(rule_prefix + "/VC2", g, what,
                             "`%s` are positions in the array's own flat data, but %s may still be a lazy view whose raw "
                             "buffer is the parent's" % (ast.unparse(v.elts[0]), selfp), node=n.ast, engine="E2")
    # VC2'': the raw accessors themselves never materialise: the indices they receive were resolved against the buffer as
    # it was when the caller computed them
    for q in ("raggedarray.base.RaggedBase._get_data_range", "raggedarray.base.RaggedBase._set_data_range"):
        g = ctx.program.funcs.get(q)
        if g is None:
            continue
        ga = ctx.fa(g)
        mat = None
        for tm, targets in coh.R.callees(ga):
            if tm.k == "call" and isinstance(tm.node, ast.Call) and coh.ts.is_materialiser_call(tm.node, ga):
                mat = tm
                break
        whatr = "the raw accessor applies its index to the buffer as it is (it does not materialise the array first)"
        if mat is None:
            ctx.holds(rule_prefix + "/VC2", g, whatr, engine="E2")
        else:
            ctx.violated(rule_prefix + "/VC2", g, whatr, "`%s` replaces the buffer of a lazy view by its own cells, but the index was computed against the parent's buffer: "
                         "the first mixed integer/slice read of a view that does not start at offset 0 returns other rows' cells" % (mat,), node=mat.node, engine="E2")
    # VC2': in __getitem__ the (index, None) results are applied to the raw buffer, not to the materialised data
    gi = ctx.program.funcs.get("raggedarray.indexablearray.IndexableArray.__getitem__")
    if gi is not None and gi.qual in coh.results:
        from .guards import facts_at
        res = coh.results[gi.qual]
        fa = res["fa"]
        for r in fa.cfg.returns():
            facts = facts_at(fa, r)
            none_shape = any(t.k == "cmp" and t.a[0] in ("is", "==") and t.a[2].k == "const" and t.a[2].a[0] is None and t.a[1].k == "item" and t.a[1].a[1] == 1 and truth
                             or t.k == "cmp" and t.a[0] in ("is not", "!=") and t.a[2].k == "const" and t.a[2].a[0] is None and t.a[1].k == "item" and t.a[1].a[1] == 1 and not truth
                             for t, truth, _ in facts)
            if not none_shape:
                continue
            tm = fa.term(r.ast.value, r)
            what = "indices computed against the raw buffer (before materialisation) are applied to the raw buffer"
            if tm.k == "call" and tm.a[0].k == "attr" and tm.a[0].a[1] == "_get_data_range":
                ctx.holds(rule_prefix + "/VC2", gi, what, node=r.ast, engine="E2")
            elif tm.k == "sub" and tm.a[0].k == "call" and tm.a[0].a[0].k == "attr" and tm.a[0].a[0].a[1] == "ravel":
                ctx.violated(rule_prefix + "/VC2", gi, what, "`%s`: the index was resolved while the array could still be a lazy view (positions in the parent's buffer) but is "
                             "applied after ravel() moved the selection into its own buffer" % (tm,), node=r.ast, engine="E2")
            else:
                ctx.unknown(rule_prefix + "/VC2", gi, what, node=r.ast, engine="E2")
    # VC4
    for q, res in coh.results.items():
        f = res["fa"].func
        fa = res["fa"]
        for n in fa.cfg.stmts():
            for call in _calls_in(n):
                if isinstance(call.func, ast.Attribute) and call.func.attr == "_set_data_range":
                    st = res["call"].get(id(call), frozenset())
                    p = path_of(call.func.value)
                    what = "a raw write happens on a materialised array (assigning into a selection never reaches its source)"
                    if p in st:
                        ok = True
                        # the index must have been computed after the materialisation: every provider call in
                        # this function that feeds the index runs with the receiver materialised
                        for n2 in fa.cfg.stmts():
                            for c2 in _calls_in(n2):
                                if isinstance(c2.func, ast.Attribute) and path_of(c2.func.value) == p \
                                        and c2.func.attr in {g.name for g in provs} | {"_get_view"}:
                                    if p not in res["call"].get(id(c2), frozenset()):
                                        ok = False
                                        bad = c2
                        if ok:
                            ctx.holds(rule_prefix + "/VC4", f, what, node=call, engine="E2")
                        else:
                            ctx.violated(rule_prefix + "/VC4", f, what,
                                         "the index is computed by %s before %s is materialised" % (ast.unparse(bad), p),
                                         node=call, engine="E2")
                    else:
                        ctx.violated(rule_prefix + "/VC4", f, what,
                                     "%s may still be a lazy view sharing its parent's buffer when %s runs: the write "
                                     "lands in the parent" % (p, ast.unparse(call.func)), node=call, engine="E2")


def _is_raw(a):
    src = a
    while src.k == "item":
        src = src.a[0]
    if src.k == "call" and src.a[0].k == "attr" and src.a[0].a[1] in ("get_flat_indices", "_get_view", "_get_flat_indices"):
        return True
    if a.k == "call" and a.a[0].k == "global" and a.a[0].a[0] == "slice" and all(x.k == "const" and x.a[0] is None for x in a.a[1]):
        return True
    return False
